"""Decision tables of the header parsers (DESIGN.md 2.3-3, 6/C06).

For one MIR body (a header sub-parser) this module computes, without running it,

  * the consuming reader calls (`reads`), numbered in reverse post-order, each with its width and the condition under which
    it executes;
  * for every value the function can return, a table  leaf path -> value -> condition ;
  * for every flag-set local, the table  flag -> condition it is inserted under.

Conditions are DNFs over *decisions* in the bit-slice domain:

    ('S', 'r2[4]', 2, {1})          bits 4..4 of the 2nd read (right aligned) take a value of the set; universe size 2
    ('V', 'r9.1', ('None','Some'), {'None'})    the enum value has one of these variants
    ('A', 'arg1.0 has SORENSON_SPARK_BITSTREAM', True)     an opaque atom (decoder options, earlier results)

A local with several definitions is resolved through its reaching definitions (def block's path condition AND the paths
from the definition to the use that avoid the other definitions), so the tables do not depend on how the source spreads
a decision over temporaries, `match` arms or `if` chains.  `x |= FLAG` through `&mut` is modelled as an insertion into a
flag-set local; any other mutable borrow passed to a call makes the local opaque.  Back edges are ignored (one loop
iteration is described); the loops of the header parsers are checked separately by the rule that uses this module.
"""
import re
from . import dataflow
from .cfg import cfg_of
from .dataflow import Defs, expr_of, expr_str, _expr_rv
from .facts import Unanalysable

READS = ('read_bits', 'read_u8', 'read_signed_bits', 'read_vlc', 'read_umv', 'skip_bits', 'peek_bits', 'recognize_start_code')
STD_VARIANTS = {
    'std::option::Option': ((0, 'None'), (1, 'Some')),
    'std::result::Result': ((0, 'Ok'), (1, 'Err')),
    'std::ops::ControlFlow': ((0, 'Continue'), (1, 'Break')),
}
INT_BITS = {'u8': 8, 'u16': 16, 'u32': 32, 'u64': 64, 'usize': 64, 'i8': 8, 'i16': 16, 'i32': 32, 'i64': 64, 'isize': 64, 'u128': 128, 'i128': 128}

TRUE = frozenset([frozenset()])
FALSE = frozenset()


class CoSet:
    """finite or co-finite set of values over an unknown universe (the value sets of `S` decisions whose universe is None)"""
    __slots__ = ('base', 'neg')
    def __init__(self, base=(), neg=False):
        if isinstance(base, CoSet): base, neg = base.base, (base.neg != neg)
        self.base = frozenset(base); self.neg = bool(neg)
    @staticmethod
    def of(x): return x if isinstance(x, CoSet) else CoSet(x)
    def __and__(s, o):
        o = CoSet.of(o)
        if not s.neg and not o.neg: return CoSet(s.base & o.base)
        if s.neg and o.neg: return CoSet(s.base | o.base, True)
        f, c = (s, o) if not s.neg else (o, s)
        return CoSet(f.base - c.base)
    __rand__ = __and__
    def __or__(s, o):
        o = CoSet.of(o)
        if not s.neg and not o.neg: return CoSet(s.base | o.base)
        if s.neg and o.neg: return CoSet(s.base & o.base, True)
        f, c = (s, o) if not s.neg else (o, s)
        return CoSet(c.base - f.base, True)
    __ror__ = __or__
    def complement(s): return CoSet(s.base, not s.neg)
    def __le__(s, o): return not (s & CoSet.of(o).complement())
    def __bool__(s): return s.neg or bool(s.base)
    def __contains__(s, v): return s.neg if v == '<other>' else ((v in s.base) != s.neg)
    def __iter__(s):
        for v in sorted(s.base, key=str): yield v
        if s.neg: yield '<other>'
    def __eq__(s, o): return isinstance(o, CoSet) and s.base == o.base and s.neg == o.neg
    def __hash__(s): return hash((s.base, s.neg))
    def __repr__(s): return ('not ' if s.neg else '') + str(sorted(s.base, key=str))
    def is_everything(s): return s.neg and not s.base


def S_open(txt, vals, neg=False):
    """decision `txt in vals` (or not in) on a value whose universe is not known"""
    return ('S', txt, None, CoSet(vals, neg))


class TooBig(Exception):
    pass


def one(d):
    return frozenset([frozenset([d])])


class _MutDefs(Defs):
    """Defs with one extra pseudo definition per `&mut local` handed to a call, so that expressions stop at such locals"""
    def __init__(self, body, extra):
        Defs.__init__(self, body)
        for l, lst in extra.items():
            for m in lst:
                self.defs[l].append(('mut', m[0], None, m[1]))


class Table:
    def __init__(self, F, name, extra_reads=None, stop_at=None, paths=True, cast_kinds=False):
        """extra_reads: regex of further callees to number as reads; stop_at: predicate on (block, terminator) - path conditions are
        only computed up to the first such call in reverse post-order (for bodies whose interesting part is a prefix)"""
        self.F = F; self.name = name; self.extra_reads = extra_reads; self.cast_kinds = cast_kinds
        self.b = F.body(name); self.g = cfg_of(self.b)
        self.names = self.b.get('debug', {})
        self.muts = self._find_muts()            # local -> [(bb, call terminator, arg index)]
        self.D = _MutDefs(self.b, self.muts)
        self.flagsets = {}                         # local -> [(bb, inserted operand)]
        self.opaque = set()
        for l, lst in self.muts.items():
            ins = []
            for bb, t, ai in lst:
                n = F.callee_name(t) if t is not None else ''
                if t is not None and n.endswith('bitor_assign') and ai == 0 and len(t['args']) == 2: ins.append((bb, t['args'][1]))
                else: self.opaque.add(l)
            if l not in self.opaque: self.flagsets[l] = ins
        for l, ds in self.D.defs.items():
            for d in ds:
                if d[0] == 'setdiscr' or (d[0] == 'assign' and d[3]['lhs']['proj']) or (d[0] == 'call' and d[3]['dest']['proj']):
                    self.opaque.add(l)
        # loop-carried locals (defined both inside and outside one natural loop: accumulators, sticky flags): their value at a use
        # depends on the iteration, so they stay symbolic
        self.loopvar = set()
        for head, body in self.g.loops().items():
            for l, ds in self.D.defs.items():
                if l == 0: continue
                inside = [d for d in ds if d[0] != 'mut' and d[1] in body]
                outside = [d for d in ds if d[0] != 'mut' and d[1] not in body]
                if inside and (outside or 1 <= l <= self.b['argc']): self.loopvar.add(l)
        self.reads = []          # [(bb, callee short, width expr)]
        self.read_of_bb = {}
        self._index_reads()
        self._edge = {}
        self._pc = None
        self._between = {}
        self._lc = {}
        self.back = set(self.g.back_edges())
        self.order = {x: i for i, x in enumerate(self.g.rpo())}
        self.limit = None
        if stop_at is not None:
            hits = [self.order[bb] for bb, t in self.g.calls() if bb in self.order and stop_at(bb, t)]
            if not hits: raise Unanalysable('%s: stop marker not found' % name)
            self.limit = min(hits)
        if paths: self.pc(0)       # path conditions are computed eagerly, outermost: nothing else may trigger them half-way through a value resolution

    # ---- mutable borrows handed to calls
    def _find_muts(self):
        g = self.g
        out = {}
        for bb in sorted(g.reach):
            blk = g.blocks[bb]
            for s in blk['stmts']:
                if s['s'] != 'assign' or s['rv']['r'] not in ('ref', 'rawptr'): continue
                if not str(s['rv'].get('bk', s['rv'].get('mut', ''))).startswith('Mut'): continue
                p = s['rv']['p']
                if any(e['p'] == 'deref' for e in p['proj']): continue       # reborrow of somebody else's storage
                tmp = s['lhs']['l']
                site = None
                for b2 in sorted(g.reach):
                    t = g.blocks[b2]['term']
                    if t['t'] != 'call': continue
                    for ai, a in enumerate(t['args']):
                        if a.get('o') in ('move', 'copy') and a['p']['l'] == tmp and not a['p']['proj']:
                            site = (b2, t, ai)
                out.setdefault(p['l'], []).append(site or (bb, None, None))
        return out

    # ---- expression context: reader calls tagged by read index, mutated locals opaque
    def _ctx(self):
        tbl = self
        class Ctx:
            def __enter__(self_):
                self_.old = dataflow.CALL_TAGGER
                self_.oldk = dataflow.CAST_KINDS
                dataflow.CAST_KINDS = tbl.cast_kinds
                self_.oldd = dataflow._defs_cache.get(id(tbl.b))
                dataflow.CALL_TAGGER = lambda name, bb, t: ('%s#%d' % (name, tbl.read_of_bb[bb])) if bb in tbl.read_of_bb else name
                dataflow._defs_cache[id(tbl.b)] = tbl.D
            def __exit__(self_, *a):
                dataflow.CALL_TAGGER = self_.old
                dataflow.CAST_KINDS = self_.oldk
                if self_.oldd is not None: dataflow._defs_cache[id(tbl.b)] = self_.oldd
                else: dataflow._defs_cache.pop(id(tbl.b), None)
        return Ctx()

    def ex(self, operand):
        with self._ctx():
            return expr_of(self.F, self.b, operand, 0, {})

    def ex_rv(self, rv):
        with self._ctx():
            return _expr_rv(self.F, self.b, rv, 0, {})

    def ex_call(self, bb, t):
        with self._ctx():
            name = dataflow.CALL_TAGGER(self.F.callee_name(t), bb, t)
            return ('call', name) + tuple(expr_of(self.F, self.b, a, 0, {}) for a in t['args'])

    # ---- reads in program order
    def _index_reads(self):
        F, b, g = self.F, self.b, self.g
        sites = []
        for bb, t in g.calls():
            n = F.callee_name(t)
            m = re.search(r'H263Reader::<R>::(\w+)$', n)
            if m and m.group(1) in READS:
                sites.append((bb, m.group(1), t))
            elif F.local_callee(b['crate'], t) and re.search(r'parser::(picture|gob|macroblock|block)::decode_\w+$', n):
                sites.append((bb, n.split('::')[-1], t))
            elif self.extra_reads and re.search(self.extra_reads, n):
                sites.append((bb, n.split('::')[-1], t))
        order = {x: i for i, x in enumerate(g.rpo())}
        sites.sort(key=lambda s_: order.get(s_[0], 10 ** 6))
        self.read_of_bb = {s_[0]: i + 1 for i, s_ in enumerate(sites)}
        self.reads = []
        for bb, callee, t in sites:
            w = None
            if callee == 'read_u8': w = ('c', 8)
            elif callee in READS and len(t['args']) > 1: w = self.ex(t['args'][1])
            self.reads.append((bb, callee, w))

    def read_width(self, k):
        w = self.reads[k - 1][2]
        return w[1] if w is not None and w[0] == 'c' else None

    def read_id(self, e):
        """which read does expression e (the Ok payload of a reader call) denote: returns k or None"""
        if e[0] == 'fld' and e[1][0] == 'call' and e[1][1].endswith('Try>::branch') and e[2] == (('as', 0), 0):
            c = e[1][2]
            if c[0] == 'call' and '#' in c[1]:
                k = int(c[1].rsplit('#', 1)[1])
                if self.reads[k - 1][1] in READS: return k
        return None

    # ---- slices
    def slice_of(self, e):
        """(read k, mask, shift) if e == ((read_k & mask) >> shift), else None.  mask None = the whole read."""
        if e[0] == 'call' and len(e) == 3 and (e[1].split('#')[0].endswith('::from') or e[1].split('#')[0].endswith('::into')) and \
                ('convert::From<u' in e[1] or 'convert::Into<' in e[1] or 'as std::convert::From' in e[1]):
            return self.slice_of(e[2])          # u16::from(x) / x.into() between unsigned integers: lossless widening
        if e[0] == 'cast':
            s = self.slice_of(e[2])
            if s is None: return None
            bits = INT_BITS.get(e[1])
            if bits is None: return s
            k, mask, sh = s
            w = self.read_width(k)
            full = mask if mask is not None else ((1 << w) - 1 if w is not None else None)
            if full is None: return s if bits >= 32 else None
            if (full >> sh).bit_length() <= bits: return s
            return (k, full & (((1 << bits) - 1) << sh), sh)
        k = self.read_id(e)
        if k is not None: return (k, None, 0)
        if e[0] == 'op' and e[1] == 'BitAnd':
            for x, y in ((e[2], e[3]), (e[3], e[2])):
                y = dataflow.strip_casts(y)
                if y[0] == 'c':
                    s = self.slice_of(x)
                    if s and s[1] is None and s[2] == 0: return (s[0], y[1], 0)
                    if s and s[2] == 0 and s[1] is not None: return (s[0], s[1] & y[1], 0)
                    if s and s[2] != 0:
                        w = self.read_width(s[0])
                        full = s[1] if s[1] is not None else ((1 << w) - 1 if w is not None else None)
                        if full is not None: return (s[0], full & (y[1] << s[2]), s[2])
        if e[0] == 'op' and e[1] == 'Shr':
            y = dataflow.strip_casts(e[3])
            if y[0] == 'c':
                s = self.slice_of(e[2])
                if s and s[2] == 0:
                    if s[1] is None:
                        w = self.read_width(s[0])
                        if w is None: return None
                        return (s[0], ((1 << w) - 1) & ~((1 << y[1]) - 1), y[1])
                    return (s[0], s[1] & ~((1 << y[1]) - 1), y[1])
        return None

    @staticmethod
    def _contiguous(mask):
        if mask == 0: return False
        hi = mask.bit_length() - 1; lo = (mask & -mask).bit_length() - 1
        return mask == ((1 << (hi + 1)) - 1) ^ ((1 << lo) - 1)

    def fmt_slice(self, s):
        """canonical text of the right-aligned slice; None when the expression is not a right-aligned contiguous slice"""
        k, mask, sh = s
        if mask is None: return 'r%d' % k if sh == 0 else None
        w = self.read_width(k)
        if w is not None and mask == (1 << w) - 1 and sh == 0: return 'r%d' % k
        if not self._contiguous(mask): return None
        hi = mask.bit_length() - 1; lo = (mask & -mask).bit_length() - 1
        if sh not in (0, lo): return None
        return 'r%d[%d]' % (k, hi) if hi == lo else 'r%d[%d:%d]' % (k, hi, lo)

    def slice_universe(self, s):
        k, mask, sh = s
        if mask is None:
            w = self.read_width(k)
            return (1 << w) if w is not None and w <= 24 else None
        return 1 << bin(mask).count('1')

    def _slice_dec(self, s, op, c):
        """DNF of  ((r & mask) >> sh) OP c"""
        k, mask, sh = s
        txt = self.fmt_slice(s)
        n = self.slice_universe(s)
        lo = (mask & -mask).bit_length() - 1 if mask else 0
        if txt is None: return one(('A', 'r%d&0x%x>>%d %s %d' % (k, mask or 0, sh, op, c), True))
        if mask is not None and sh == 0 and lo != 0:
            # comparing the unshifted masked value
            if op in ('Eq', 'Ne'):
                if c % (1 << lo) != 0: return FALSE if op == 'Eq' else TRUE
                c >>= lo
            elif op in ('Gt', 'Ge', 'Lt', 'Le'):
                # (v << lo) OP c  <=>  v OP' c' ; only the cases used in practice
                q, r_ = divmod(c, 1 << lo)
                if op == 'Gt': c = q                      # v<<lo > c  <=> v > q
                elif op == 'Ge': c = q + (1 if r_ else 0)
                elif op == 'Lt': c = q + (1 if r_ else 0)
                else: c = q
        if n is None:
            if op == 'Eq': return one(S_open(txt, [c]))
            return one(('A', '%s %s %d' % (txt, op, c), True))
        f = {'Eq': lambda v: v == c, 'Ne': lambda v: v != c, 'Lt': lambda v: v < c, 'Le': lambda v: v <= c, 'Gt': lambda v: v > c, 'Ge': lambda v: v >= c}[op]
        vs = frozenset(v for v in range(n) if f(v))
        if not vs: return FALSE
        if len(vs) == n: return TRUE
        return one(('S', txt, n, vs))

    # ---- expression helpers
    def show(self, e):
        """canonical text of a resolved expression: reads as rK, slices as rK[hi:lo], linear arithmetic normalised"""
        if not isinstance(e, tuple): return str(e)
        s = self.slice_of(e)
        if s is not None:
            t = self.fmt_slice(s)
            if t is not None: return t
        lin = self._lin(e)
        if lin is not None and lin[0] is not None and (lin[1], lin[2]) != (1, 0):
            base, a, c = lin
            r = base if a == 1 else '%d*%s' % (a, base)
            return r + ('+%d' % c if c else '')
        k = e[0]
        if k == 'cast': return self.show(e[2])
        if k == 'c': return str(e[1])
        if k == 'fld':
            base = e[1]
            if base[0] == 'call' and base[1].endswith('Try>::branch') and e[2][:2] == (('as', 0), 0):
                c = base[2]
                rest = ''.join('.%s' % dataflow._fs(x) for x in e[2][2:])
                if c[0] == 'call' and '#' in c[1]:
                    return 'r%s%s' % (c[1].rsplit('#', 1)[1], rest)
                if c[0] == 'call' and c[1].endswith('Option::<T>::ok_or') and len(c) == 4:
                    return 'some(%s or %s)%s' % (self.show(c[2]), self.show(c[3]), rest)      # `x.ok_or(E)?`
            return '%s%s' % (self.show(base), ''.join('.%s' % dataflow._fs(x) for x in e[2]))
        if k == 'param':
            proj = tuple(e[2])
            up = self.b.get('upvars') or {}
            if e[1] == 1 and proj and isinstance(proj[0], int) and str(proj[0]) in up:
                return up[str(proj[0])] + ''.join('.%s' % dataflow._fs(x) for x in proj[1:])
            nm = self.names.get(str(e[1]), 'arg%d' % e[1])
            return nm + ''.join('.%s' % dataflow._fs(x) for x in proj)
        if k in ('multi', 'fs', 'opq'):
            nm = self.names.get(str(e[1]), 'tmp')
            return '$%s%s' % (nm, ''.join('.%s' % dataflow._fs(x) for x in (e[2] if len(e) > 2 else ())))
        if k == 'op':
            a, b = self.show(e[2]), self.show(e[3])
            if e[1] in ('Add', 'Mul', 'BitOr', 'BitAnd', 'BitXor', 'Eq', 'Ne'): a, b = sorted((a, b))
            return '%s(%s, %s)' % (e[1], a, b)
        if k == 'un': return '%s(%s)' % (e[1], self.show(e[2]))
        if k == 'call':
            n = e[1]
            short = n.split('>::')[-1] if '>::' in n else n.split('::')[-1]
            if '#' in n and not short.endswith('#' + n.rsplit('#', 1)[1]): short += '#' + n.rsplit('#', 1)[1]
            if '#' in n and e[1].split('#')[0].split('::')[-1] in READS:
                return 'result(r%s)' % n.rsplit('#', 1)[1]
            if short in ('bitor', 'bitand'):
                return '%s(%s)' % (short, ', '.join(sorted(self.show(x) for x in e[2:])))
            return '%s(%s)' % (short, ', '.join(self.show(x) for x in e[2:]))
        if k == 'agg':
            return '%s(%s)' % (e[1], ', '.join(self.show(x) for x in e[2:])) if len(e) > 2 else str(e[1])
        if k == 'item': return str(e[1]).split('::')[-1]
        if k == 'static': return 'static ' + str(e[1]).split('::')[-1]
        if k == 'discr': return 'discr(%s)' % self.show(e[1])
        if k == 'fn': return 'fn ' + str(e[1]).split('::')[-1]
        return expr_str(e, self.names)

    def _lin(self, e):
        """(base text or None, a, c): e == a*base + c over one slice/read, else None"""
        if e[0] == 'cast': return self._lin(e[2])
        if e[0] == 'c' and isinstance(e[1], int): return (None, 0, e[1])
        s = self.slice_of(e)
        if s is not None:
            t = self.fmt_slice(s)
            if t is not None: return (t, 1, 0)
            k, mask, sh = s
            if mask is not None and self._contiguous(mask) and sh == 0:
                lo = (mask & -mask).bit_length() - 1
                return (self.fmt_slice((k, mask, lo)), 1 << lo, 0)
            return None
        if e[0] == 'op' and e[1] in ('Add', 'Sub', 'Mul', 'Shl', 'BitOr'):
            x, y = self._lin(e[2]), self._lin(e[3])
            if x is None or y is None: return None
            if e[1] in ('Add', 'Sub'):
                sg = 1 if e[1] == 'Add' else -1
                if x[0] is not None and y[0] is not None and x[0] != y[0]: return None
                return (x[0] or y[0], x[1] + sg * y[1], x[2] + sg * y[2])
            if e[1] == 'Mul':
                if x[0] is None: return (y[0], y[1] * x[2], y[2] * x[2])
                if y[0] is None: return (x[0], x[1] * y[2], x[2] * y[2])
                return None
            if e[1] == 'Shl' and y[0] is None: return (x[0], x[1] << y[2], x[2] << y[2])
        return None

    # ---- value resolution
    def _find_multi(self, e):
        if not isinstance(e, tuple) or not e or not isinstance(e[0], str): return None
        if e[0] == 'multi': return e
        for x in e[1:]:
            if isinstance(x, tuple):
                m = self._find_multi(x)
                if m is not None: return m
        return None

    def _subst(self, e, old, new):
        if e == old: return new
        if not isinstance(e, tuple) or not e or not isinstance(e[0], str): return e
        return tuple(self._subst(x, old, new) if isinstance(x, tuple) else x for x in e)

    def project(self, v, proj):
        proj = tuple(proj)
        while proj:
            if v[0] == 'fld':
                v, proj = v[1], tuple(v[2]) + proj
                if v[0] == 'fld': continue
                return ('fld', v, proj)
            if v[0] == 'agg' and isinstance(proj[0], int) and proj[0] < len(v) - 2:
                v, proj = v[2 + proj[0]], proj[1:]; continue
            if v[0] == 'agg' and isinstance(proj[0], tuple) and proj[0][0] == 'as':
                proj = proj[1:]; continue
            return ('fld', v, proj)
        return v

    def simp(self, e):
        """constant-fold what the header parsers use on Option / flag values"""
        if not isinstance(e, tuple) or not e or not isinstance(e[0], str): return e
        e = tuple(self.simp(x) if isinstance(x, tuple) else x for x in e)
        if e[0] == 'fld' and e[1][0] in ('agg', 'fld'):
            return self.project(e[1], e[2])
        if e[0] == 'call':
            n = e[1].split('#')[0]
            a = e[2] if len(e) > 2 else None
            if a is not None and a[0] == 'agg' and a[1] in ('Some', 'None'):
                if n.endswith('Option::<T>::is_some'): return ('c', 1 if a[1] == 'Some' else 0)
                if n.endswith('Option::<T>::is_none'): return ('c', 1 if a[1] == 'None' else 0)
                if n.endswith('Option::<T>::unwrap') and a[1] == 'Some': return a[2]
        return e

    def local_defs(self, l):
        """[(bb, in-block position or None for terminators, value expression or None)] of the whole-local definitions"""
        out = []
        if 1 <= l <= self.b['argc']:
            out.append((0, -1, ('param', l, ())))
        for d in self.D.defs.get(l, []):
            if d[0] == 'assign' and not d[3]['lhs']['proj']: out.append((d[1], d[2], self.ex_rv(d[3]['rv'])))
            elif d[0] == 'call' and not d[3]['dest']['proj']: out.append((d[1], None, self.ex_call(d[1], d[3])))
        return out

    def local_cases(self, l, at):
        """[(dnf, value)] : the value of local l as seen at the end of block `at` (a use in its terminator or later statements)"""
        key = (l, at)
        if key in self._lc: return self._lc[key]
        self._lc[key] = []
        defs = self.local_defs(l)
        blocks = {d[0] for d in defs}
        out = []
        here = [d for d in defs if d[0] == at and d[1] is not None]
        if here:
            d = max(here, key=lambda d_: d_[1])
            for c, v in self.cases(d[2], d[0]):
                out.append((dnf_and(self.pc(at), c), v))
        else:
            for d in defs:
                if d[0] == at: continue
                bt = self.between(d[0], at, frozenset(blocks - {d[0], at}))
                if not bt: continue
                reach = dnf_and(self.pc(d[0]), bt)
                if not reach: continue
                for c, v in self.cases(d[2], d[0]):
                    cc = dnf_and(reach, c)
                    if cc: out.append((cc, v))
        self._lc[key] = out
        return out

    def cases(self, e, at, budget=4096):
        """[(dnf, e')]: e as seen at block `at`, every multi-definition local replaced by the value of one reaching definition"""
        m = self._find_multi(e)
        if m is None: return [(TRUE, self.simp(e))]
        l = m[1]; proj = m[2] if len(m) > 2 else ()
        if l in self.flagsets and l not in self.opaque:
            return self.cases(self._subst(e, m, ('fs', l, proj, at)), at, budget)
        if l in self.opaque or l in self.loopvar:
            return self.cases(self._subst(e, m, ('opq', l, proj)), at, budget)
        out = []
        for c, v in self.local_cases(l, at):
            e2 = self._subst(e, m, self.project(v, proj))
            for c2, e3 in self.cases(e2, at, budget):
                cc = dnf_and(c, c2)
                if cc: out.append((cc, e3))
            if len(out) > budget: raise TooBig('more than %d value cases' % budget)
        # merge equal values
        merged = {}
        for c, v in out:
            merged[v] = dnf_or(merged.get(v, FALSE), c)
        return [(c, v) for v, c in merged.items()]

    # ---- flag sets
    def has_flag(self, l, flag, at):
        """DNF under which flag-set local l contains `flag` at block `at`"""
        defs = self.local_defs(l)
        real = {d[0] for d in defs}
        res = FALSE
        for d in defs:
            if d[0] == at and d[1] is None: continue
            bt = TRUE if d[0] == at else self.between(d[0], at, frozenset(real - {d[0], at}))
            if not bt: continue
            reach = dnf_and(self.pc(d[0]), bt)
            for c, v in self.cases(d[2], d[0]):
                res = dnf_or(res, dnf_and(dnf_and(reach, c), self.value_has(v, flag, d[0])))
        for bb, x in self.flagsets[l]:
            if bb == at: continue
            bt = self.between(bb, at, frozenset(real - {bb, at}))
            if not bt: continue
            reach = dnf_and(self.pc(bb), bt)
            for c, v in self.cases(self.ex(x), bb):
                res = dnf_or(res, dnf_and(dnf_and(reach, c), self.value_has(v, flag, bb)))
        return res

    def value_has(self, v, flag, at):
        v = dataflow.strip_casts(v)
        if v[0] == 'call' and v[1].split('#')[0].endswith('::empty'): return FALSE
        if v[0] == 'item':
            return TRUE if v[1].split('::')[-1] == flag else FALSE
        if v[0] == 'fs': return self.has_flag(v[1], flag, v[3])
        return one(('A', '%s has %s' % (self.show(v), flag), True))

    def flag_rows(self, l, at):
        """insertions into flag-set local l that reach block `at`: [(shown inserted value, dnf)] plus the base definitions"""
        defs = self.local_defs(l)
        real = {d[0] for d in defs}
        rows = {}
        def add(k, c):
            if c: rows[k] = dnf_or(rows.get(k, FALSE), c)
        for d in defs:
            if d[0] == at and d[1] is None: continue
            bt = TRUE if d[0] == at else self.between(d[0], at, frozenset(real - {d[0], at}))
            reach = dnf_and(self.pc(d[0]), bt)
            for c, v in self.cases(d[2], d[0]):
                v = dataflow.strip_casts(v)
                if v[0] == 'call' and v[1].split('#')[0].endswith('::empty'): continue
                if v[0] == 'fs':
                    for k2, c2 in self.flag_rows(v[1], v[3]).items(): add(k2, dnf_and(dnf_and(reach, c), c2))
                    continue
                add(self.show(v), dnf_and(reach, c))
        for bb, x in self.flagsets[l]:
            if bb == at: continue
            bt = self.between(bb, at, frozenset(real - {bb, at}))
            reach = dnf_and(self.pc(bb), bt)
            for c, v in self.cases(self.ex(x), bb):
                if v[0] == 'fs':
                    for k2, c2 in self.flag_rows(v[1], v[3]).items(): add(k2, dnf_and(dnf_and(reach, c), c2))
                    continue
                add(self.show(v), dnf_and(reach, c))
        return rows

    # ---- decisions
    def edge_cond(self, bb, succ):
        """DNF of taking edge bb->succ given that bb executes (TRUE for decisions that carry no information)"""
        key = (bb, succ)
        if key in self._edge: return self._edge[key]
        t = self.g.blocks[bb]['term']
        r = TRUE
        if t['t'] == 'switch' and len(set(self.g.succ[bb])) > 1:
            arms = [(int(v), to) for v, to in t['arms']]
            vals = [v for v, to in arms if to == succ]
            is_other = succ == t['otherwise']
            e = self.ex(t['on'])
            r = FALSE
            for c, e1 in self.cases(e, bb):
                r = dnf_or(r, dnf_and(c, self._norm(e1, vals, is_other, [v for v, _ in arms], t, bb)))
            # the value cases carry absolute reach conditions: keep only what block bb's own path condition does not already say
            r = restrict(r, (self._pc or {}).get(bb))
        self._edge[key] = r
        return r

    def _variants(self, t, bb):
        """((discriminant value, variant name), ...) of the enum a switch on a discriminant inspects"""
        from .cfg import _strip_generics
        on = t['on']
        if on.get('o') not in ('move', 'copy'): return None
        for s_ in reversed(self.g.blocks[bb]['stmts']):
            if s_['s'] == 'assign' and s_['lhs']['l'] == on['p']['l'] and s_['rv']['r'] == 'discr':
                ty = _strip_generics(s_['rv']['p']['ty']).lstrip('&').strip()
                if ty.startswith('mut '): ty = ty[4:]
                if ty in STD_VARIANTS: return STD_VARIANTS[ty]
                adt = self.F.adts.get(self.b['crate'] + '::' + ty)
                if adt and adt['kind'] == 'enum':
                    return tuple((int(v['discr']), v['name']) for v in adt['variants'])
        return None

    def _norm(self, e, vals, is_other, all_vals, t, bb):
        """DNF of `the switch operand e took one of vals` (or, with is_other, none of all_vals - plus vals)"""
        def taken(v):
            return v in vals or (is_other and v not in all_vals)
        e0 = e
        e = dataflow.strip_casts(e) if self.slice_of(e) is None else e
        if e[0] == 'c' and isinstance(e[1], int):
            return TRUE if taken(e[1]) else FALSE
        if e[0] == 'discr' and e[1][0] == 'call' and e[1][1].split('#')[0].endswith('Try>::branch'): return TRUE
        boolish = set(all_vals) <= {0, 1}
        ty = t['on'].get('p', {}).get('ty') if (t is not None and isinstance(t.get('on'), dict) and e is e0) else None
        int_typed = isinstance(ty, str) and ty in INT_BITS
        if int_typed and self.slice_of(e) is None and e[0] not in ('op', 'un', 'call', 'discr'):
            # an integer value that is not (a slice of) a read: `== c` decisions on the value itself, never a truth value
            txt = self.show(e)
            if not is_other: return one(S_open(txt, vals))
            return one(S_open(txt, set(all_vals) - set(vals), True))
        if e[0] == 'op' and e[1] in ('Eq', 'Ne', 'Lt', 'Le', 'Gt', 'Ge') and boolish:
            res = FALSE
            for truth in (False, True):
                if not taken(int(truth)): continue
                res = dnf_or(res, self._cmp(e, truth, t, bb))
            return res
        if e[0] == 'un' and e[1] == 'Not' and boolish:
            nv = [1 - v for v in (0, 1) if taken(v)]
            return self._norm(e[2], nv, False, [0, 1], t, bb)
        s = self.slice_of(e)
        if s is not None:
            k, mask, sh = s
            n = self.slice_universe(s)
            txt = self.fmt_slice(s)
            if txt is None or n is None:
                if txt is not None and not is_other:
                    return one(S_open(txt, vals))
                return one(('A', '%s in %s' % (self.show(e), vals if not is_other else ('not', sorted(all_vals))), True))
            lo = (mask & -mask).bit_length() - 1 if mask else 0
            def val_of(v):      # value of the switch operand when the right-aligned slice is v
                return v << lo if (mask is not None and sh == 0) else v
            vs = frozenset(v for v in range(n) if taken(val_of(v)))
            if not vs: return FALSE
            if len(vs) == n: return TRUE
            return one(('S', txt, n, vs))
        if e[0] == 'call' and boolish:
            n = e[1].split('#')[0]
            res = FALSE
            for truth in (False, True):
                if not taken(int(truth)): continue
                res = dnf_or(res, self._call_truth(e, n, truth, bb))
            return res
        if e[0] == 'discr':
            x = e[1]
            vs = self._variants(t, bb)
            if vs is None:
                return one(('A', 'discr(%s) in %s' % (self.show(x), vals if not is_other else ('not', sorted(all_vals))), True))
            names = tuple(nm for _, nm in vs)
            ok = frozenset(nm for dv, nm in vs if taken(dv))
            if x[0] == 'agg':
                return TRUE if x[1] in ok else FALSE
            if not ok: return FALSE
            if len(ok) == len(names): return TRUE
            return one(('V', self.show(x), names, ok))
        if boolish:
            res = FALSE
            for truth in (False, True):
                if taken(int(truth)): res = dnf_or(res, one(('A', self.show(e), truth)))
            return res
        return one(('A', '%s in %s' % (self.show(e0), vals if not is_other else ('not', sorted(all_vals))), True))

    def _cmp(self, e, truth, t, bb):
        op = e[1]
        a, c = e[2], e[3]
        ca, cc = dataflow.strip_casts(a), dataflow.strip_casts(c)
        if ca[0] == 'c' and cc[0] != 'c':
            a, c, ca, cc = c, a, cc, ca
            op = {'Lt': 'Gt', 'Le': 'Ge', 'Gt': 'Lt', 'Ge': 'Le', 'Eq': 'Eq', 'Ne': 'Ne'}[op]
        if not truth: op = {'Eq': 'Ne', 'Ne': 'Eq', 'Lt': 'Ge', 'Le': 'Gt', 'Gt': 'Le', 'Ge': 'Lt'}[op]
        if cc[0] == 'c' and isinstance(cc[1], int):
            s = self.slice_of(a)
            if s is not None: return self._slice_dec(s, op, cc[1])
            if ca[0] == 'c' and isinstance(ca[1], int):
                f = {'Eq': ca[1] == cc[1], 'Ne': ca[1] != cc[1], 'Lt': ca[1] < cc[1], 'Le': ca[1] <= cc[1], 'Gt': ca[1] > cc[1], 'Ge': ca[1] >= cc[1]}[op]
                return TRUE if f else FALSE
            if cc[1] in (0, 1) and op in ('Eq', 'Ne') and self._is_bool(ca):
                inner_true = (op == 'Eq') == (cc[1] == 1)
                return self._norm(ca, [1] if inner_true else [0], False, [0, 1], t, bb)
        txt = '%s(%s, %s)' % (e[1], self.show(e[2]), self.show(e[3]))
        want = truth
        return one(('A', txt, want))

    @staticmethod
    def _is_bool(e):
        if e[0] == 'op' and e[1] in ('Eq', 'Ne', 'Lt', 'Le', 'Gt', 'Ge'): return True
        if e[0] == 'un' and e[1] == 'Not': return Table._is_bool(e[2])
        if e[0] == 'call':
            n = e[1].split('#')[0]
            return n.endswith('::contains') or n.endswith('::is_some') or n.endswith('::is_none') or n.endswith('::is_empty') or n.endswith('::is_disposable') \
                or n.endswith('::is_inter') or n.endswith('::is_intra')
        return False

    def _call_truth(self, e, n, truth, bb):
        if n.endswith('::contains') and len(e) == 4:
            flag = e[3]
            fname = flag[1].split('::')[-1] if flag[0] == 'item' else self.show(flag)
            d = self.value_has(e[2], fname, bb)
            return d if truth else dnf_not(d)
        if n.endswith('Option::<T>::is_some') or n.endswith('Option::<T>::is_none'):
            pos = n.endswith('is_some') == truth
            x = e[2]
            if x[0] == 'agg' and x[1] in ('Some', 'None'):
                return TRUE if (x[1] == 'Some') == pos else FALSE
            return one(('V', self.show(x), ('None', 'Some'), frozenset(['Some' if pos else 'None'])))
        if n.endswith('Option::<T>::unwrap_or') and len(e) == 4 and e[3][0] == 'c' and e[3][1] in (0, 1, True, False) \
                and e[2][0] == 'call' and e[2][1].split('#')[0].endswith('Option::<T>::map') and len(e[2]) == 4:
            # opt.map(pred).unwrap_or(c): the predicate on the payload if there is one, else the constant
            x = e[2][2]
            some = one(('V', self.show(x), ('None', 'Some'), frozenset(['Some'])))
            none = one(('V', self.show(x), ('None', 'Some'), frozenset(['None'])))
            atom = one(('A', self.show(e[2]), truth))
            return dnf_or(dnf_and(some, atom), none if bool(e[3][1]) == truth else FALSE)
        if (n.endswith('PartialEq>::eq') or n.endswith('PartialEq>::ne')) and len(e) == 4:
            # Option == Some(c) / None with a promoted constant: the variant test and the payload test, as `matches!` would give them
            want = truth == n.endswith('::eq')
            for x, k in ((e[2], e[3]), (e[3], e[2])):
                if k[0] == 'k' and isinstance(k[1], str):
                    m = re.match(r'^Some\((-?\d+)\)$', k[1])
                    d = None
                    if k[1] == 'None': d = one(('V', self.show(x), ('None', 'Some'), frozenset(['None'])))
                    elif m:
                        d = dnf_and(one(('V', self.show(x), ('None', 'Some'), frozenset(['Some']))),
                                    one(S_open(self.show(self.project(x, [('as', 1), 0])), [int(m.group(1))])))
                    if d is not None: return d if want else dnf_not(d)
        return one(('A', self.show(e), truth))

    # ---- path conditions
    def pc(self, bb):
        if self._pc is None:
            self._pc = {0: TRUE}
            idom = self.g.idom()
            for x in self.g.rpo():
                if self.limit is not None and self.order[x] > self.limit: break
                if x not in self._pc: continue
                self._pc[x] = self._shrink(self._pc[x], self._pc.get(idom.get(x)))
                for succ in set(self.g.succ[x]):
                    if (x, succ) in self.back: continue
                    c = dnf_and(self._pc[x], self.edge_cond(x, succ))
                    self._pc[succ] = dnf_or(self._pc.get(succ, FALSE), c)
        return self._pc.get(bb, FALSE)

    @staticmethod
    def _shrink(dnf, cand):
        """a join of branches that all fall through denotes the condition of the branching block: use that (smaller) form
        when it is the same Boolean function"""
        if len(dnf) <= 1: return dnf
        for c in (TRUE, cand):
            if c is None or len(c) >= len(dnf): continue
            if dnf_implies(c, dnf) and dnf_implies(dnf, c): return c
        return dnf

    def between(self, src, dst, avoid):
        """DNF of the decisions along the paths src -> dst that do not pass through a block of `avoid`"""
        if src == dst: return TRUE
        key = (src, dst, avoid)
        if key in self._between: return self._between[key]
        if self.order.get(src, 1 << 30) > self.order.get(dst, -1):
            self._between[key] = FALSE; return FALSE
        cur = {src: TRUE}
        idom = self.g.idom()
        for x in self.g.rpo():
            if x in cur and x != src: cur[x] = self._shrink(cur[x], cur.get(idom.get(x)))
            if x == dst: break                  # reverse post-order: nothing after dst can lead back to it without a back edge
            if x not in cur: continue
            if x in avoid and x != src: continue
            for succ in set(self.g.succ[x]):
                if (x, succ) in self.back: continue
                c = dnf_and(cur[x], self.edge_cond(x, succ))
                if c: cur[succ] = dnf_or(cur.get(succ, FALSE), c)
        r = cur.get(dst, FALSE)
        self._between[key] = r
        return r

    # ---- tables
    def read_rows(self):
        """[(k, callee, [(width text, dnf)], dnf)]"""
        out = []
        for i, (bb, callee, w) in enumerate(self.reads):
            cond = self.pc(bb)
            ws = []
            if w is not None:
                for c, v in self.cases(w, bb):
                    cc = dnf_and(cond, c)
                    if cc: ws.append((self.show(v), cc))
            out.append((i + 1, callee, ws, cond))
        return out

    def return_rows(self, items=None):
        """{leaf path: {value text: dnf}} over every definition of the return place; flag sets are listed under path+'|flags'"""
        rows = {}
        def add(path, val, c):
            if not c: return
            d = rows.setdefault(path, {})
            d[val] = dnf_or(d.get(val, FALSE), c)
        def walk(path, v, c, at):
            if not c: return
            if v[0] == 'agg' and len(v) > 2:
                tag = v[1]
                pre = path if (tag == 'tuple' or tag[0].islower()) else (path + '.' + tag if path else tag)
                if len(v) == 3 and tag != 'tuple':
                    walk(pre, v[2], c, at); return
                for i, x in enumerate(v[2:]):
                    walk('%s.%d' % (pre, i) if pre else str(i), x, c, at)
                return
            if self._find_multi(v) is not None:
                for c2, v2 in self.cases(v, at):
                    walk(path, v2, dnf_and(c, c2), at)
                return
            v = self.simp(v)
            if v[0] == 'agg' and len(v) > 2:
                walk(path, v, c, at); return
            if v[0] == 'fs':
                for k2, c2 in self.flag_rows(v[1], v[3]).items():
                    add(path + '|flags', k2, dnf_and(c, c2))
                add(path + '|flags', '', c)       # the set itself is returned here
                return
            if v[0] == 'op' and v[1] in ('Eq', 'Ne', 'Lt', 'Le', 'Gt', 'Ge'):
                t = self._cmp(v, True, None, at)
                add(path, '1', dnf_and(c, t)); add(path, '0', dnf_and(c, dnf_not(t)))
                return
            if v[0] == 'un' and v[1] == 'Not' and v[2][0] == 'op' and v[2][1] in ('Eq', 'Ne', 'Lt', 'Le', 'Gt', 'Ge'):
                t = self._cmp(v[2], True, None, at)
                add(path, '0', dnf_and(c, t)); add(path, '1', dnf_and(c, dnf_not(t)))
                return
            if v[0] == 'call' and self._is_bool(v):
                # a boolean-valued test (flags.contains(F), opt.is_some(), ..) handed on as a value: the condition under which it is true
                t = self._norm(v, [1], False, [0, 1], None, at)
                add(path, '1', dnf_and(c, t)); add(path, '0', dnf_and(c, dnf_not(t)))
                return
            add(path, self.show(v), c)
        if items is None:
            items = []
            for d in self.local_defs(0):
                bb, pos, val = d
                if val is None: continue
                if val[0] == 'call' and val[1].split('#')[0].endswith('from_residual'): continue
                items.append((val, bb))
        for val, bb in items:
            walk('', val, self.pc(bb), bb)
        return rows

    def value_rows(self, items):
        """the decision rows of arbitrary values: items = [(expression, block at which it is evaluated)] (e.g. what is pushed to a vector)"""
        return self.return_rows(items)

    def error_rows(self):
        """{Error variant: dnf} of the sites constructing an error value"""
        rows = {}
        for bb in sorted(self.g.reach):
            for s in self.g.blocks[bb]['stmts']:
                if s['s'] == 'assign' and s['rv']['r'] == 'agg' and s['rv']['kind']['a'] == 'adt' and s['rv']['kind']['path'].endswith('error::Error'):
                    vn = s['rv']['kind']['vname']
                    rows[vn] = dnf_or(rows.get(vn, FALSE), self.pc(bb))
        return rows


# ---------------------------------------------------------------------------------------------------
# DNF algebra
def dec_key(d):
    return (d[0], d[1])


def conj_add(c, d):
    """conjunction c extended with decision d; None if contradictory"""
    out = set(c)
    for e in c:
        if dec_key(e) == dec_key(d):
            m = dec_meet(e, d)
            if m is None: return None
            out.discard(e); out.add(m)
            return frozenset(out)
    out.add(d)
    return frozenset(out)


def dec_meet(a, b):
    if a[0] in ('S', 'V'):
        vs = a[3] & b[3]
        return (a[0], a[1], a[2], vs) if vs else None
    return a if a[2] == b[2] else None


def dec_join(a, b):
    """disjunction of two decisions on the same variable; 'true' when it covers everything"""
    if a[0] in ('S', 'V'):
        vs = a[3] | b[3]
        if isinstance(vs, CoSet):
            return 'true' if vs.is_everything() else (a[0], a[1], a[2], vs)
        n = a[2] if a[0] == 'S' else (len(a[2]) if a[2] else None)
        if n is not None and len(vs) >= n: return 'true'
        return (a[0], a[1], a[2], vs)
    return a if a[2] == b[2] else 'true'


def dec_not(d):
    """DNF of the negation of one decision"""
    if d[0] == 'A': return one(('A', d[1], not d[2]))
    if d[0] == 'S':
        if d[2] is None: return one(('S', d[1], None, CoSet.of(d[3]).complement()))
        vs = frozenset(range(d[2])) - d[3]
    else:
        vs = frozenset(d[2]) - d[3]
    return one((d[0], d[1], d[2], vs)) if vs else FALSE


def dnf_and(a, b):
    if a is TRUE or a == TRUE: return b
    if b == TRUE: return a
    out = set()
    for x in a:
        for y in b:
            c = x
            for d in y:
                c = conj_add(c, d)
                if c is None: break
            if c is not None: out.add(c)
    return simplify(out)


def dnf_or(a, b):
    if not a: return b
    if not b: return a
    return simplify(set(a) | set(b))


def dnf_not(a):
    r = TRUE
    for c in a:
        alt = FALSE
        for d in c: alt = dnf_or(alt, dec_not(d))
        r = dnf_and(r, alt)
    return r


def restrict(dnf, ctx):
    """dnf simplified under the assumption ctx: literals that every conjunction of ctx implies are dropped"""
    if not ctx or not dnf or dnf == TRUE: return dnf
    def implied(d):
        for k in ctx:
            ok = False
            for e in k:
                if dec_key(e) != dec_key(d): continue
                if d[0] == 'A': ok = e[2] == d[2]
                else: ok = e[3] <= d[3]
                break
            if not ok: return False
        return True
    out = set()
    for c in dnf:
        out.add(frozenset(d for d in c if not implied(d)))
    return simplify(out)


def dnf_implies(a, b, limit=4000):
    """True when every assignment satisfying a satisfies b (decisions on different variables are taken as independent, so the
    answer False may be imprecise for overlapping slices; True is always right)"""
    for ca in a:
        r = frozenset([ca])
        for cb in b:
            neg = FALSE
            for d in cb:
                neg = dnf_or(neg, dec_not(d))
            r = dnf_and(r, neg)
            if not r: break
            if len(r) > limit: return False
        if r: return False
    return True


def simplify(dnf):
    """subsumption and one-variable merging to a fixpoint (bucketed: near-linear in the number of conjunctions per pass)"""
    dnf = set(dnf)
    if frozenset() in dnf: return TRUE
    if len(dnf) < 2: return frozenset(dnf)
    while True:
        changed = False
        # merge conjunctions that differ in exactly one decision on the same variable
        buckets = {}
        for c in dnf:
            for d in c:
                buckets.setdefault((c - {d}, dec_key(d)), []).append((c, d))
        for (rest, _k), lst in buckets.items():
            if len(lst) < 2: continue
            live = [(c, d) for c, d in lst if c in dnf]
            if len(live) < 2: continue
            m = live[0][1]
            for _c, d in live[1:]:
                m = dec_join(m, d)
                if m == 'true': break
            for c, _d in live: dnf.discard(c)
            if m == 'true':
                if not rest: return TRUE
                dnf.add(rest)
            else: dnf.add(frozenset(rest | {m}))
            changed = True
        # subsumption: drop every conjunction that contains another one
        if len(dnf) > 1:
            kept = {}            # representative literal -> conjunctions kept
            out = set()
            for c in sorted(dnf, key=len):
                sub = False
                for d in c:
                    for k in kept.get(d, ()):
                        if k <= c: sub = True; break
                    if sub: break
                if sub: changed = True; continue
                out.add(c)
                kept.setdefault(min(c, key=repr), []).append(c)
            dnf = out
        if not changed: break
    return frozenset(dnf)


# ---- semantic comparison
_SL = re.compile(r'^r(\d+)(?:\[(\d+)(?::(\d+))?\])?$')


def _vars_of(dnfs):
    vs = {}
    for dnf in dnfs:
        for c in dnf:
            for d in c:
                vs.setdefault(dec_key(d), []).append(d)
    return vs


def dnf_diff(a, b, limit=1 << 20):
    """None if the two DNFs denote the same Boolean function, else a witness {variable: value} with (a's value, b's value).
    Variables: slices (distinct slices of one read must not overlap unless identical; overlapping ones are merged into the
    covering slice), enum values, atoms.  Each variable's universe is partitioned by the value sets mentioned."""
    a, b = _split_overlaps(a, b)
    vs = _vars_of([a, b])
    doms = []
    for key, ds in sorted(vs.items()):
        if key[0] == 'A':
            doms.append((key, [True, False]))
            continue
        sets = {d[3] for d in ds}
        uni = None
        for d in ds:
            if d[0] == 'S' and d[2] is not None: uni = frozenset(range(d[2]))
            if d[0] == 'V' and d[2]: uni = frozenset(d[2])
        mentioned = frozenset().union(*sets)
        if uni is None: uni = mentioned | {'<other>'}
        # partition the universe by membership signature
        classes = {}
        for v in uni:
            sig = tuple(v in s_ for s_ in sorted(sets, key=lambda z: sorted(map(str, z))))
            classes.setdefault(sig, v)
        doms.append((key, list(classes.values())))
    total = 1
    for _, d in doms: total *= len(d)
    if total > limit: raise TooBig('%d assignments' % total)
    def ev(dnf, env):
        for c in dnf:
            ok = True
            for d in c:
                v = env[dec_key(d)]
                if d[0] == 'A':
                    if v != d[2]: ok = False; break
                elif v not in d[3]: ok = False; break
            if ok: return True
        return False
    import itertools
    keys = [k for k, _ in doms]
    for combo in itertools.product(*[d for _, d in doms]):
        env = dict(zip(keys, combo))
        x, y = ev(a, env), ev(b, env)
        if x != y:
            return ({k[1]: v for k, v in env.items()}, x, y)
    return None


def _split_overlaps(a, b):
    """rewrite decisions on overlapping slices of one read as decisions on their covering slice"""
    vs = _vars_of([a, b])
    per_read = {}
    for key, ds in vs.items():
        if key[0] != 'S': continue
        m = _SL.match(key[1])
        if not m: continue
        k = int(m.group(1))
        n = ds[0][2]
        if m.group(2) is None:
            if n is None: continue
            hi, lo = n.bit_length() - 2, 0
        else:
            hi = int(m.group(2)); lo = int(m.group(3)) if m.group(3) is not None else hi
        per_read.setdefault(k, []).append((lo, hi, key[1]))
    remap = {}
    for k, lst in per_read.items():
        lst.sort()
        groups = []
        for lo, hi, txt in lst:
            if groups and lo <= groups[-1][1]:
                groups[-1][1] = max(groups[-1][1], hi); groups[-1][2].append((lo, hi, txt))
            else:
                groups.append([lo, hi, [(lo, hi, txt)]])
        for glo, ghi, members in groups:
            if len(members) == 1: continue
            if ghi - glo + 1 > 16: raise TooBig('overlapping slices of r%d span %d bits' % (k, ghi - glo + 1))
            new = 'r%d[%d:%d]' % (k, ghi, glo) if ghi != glo else 'r%d[%d]' % (k, ghi)
            for lo, hi, txt in members: remap[txt] = (new, glo, ghi, lo, hi)
    if not remap: return a, b
    def conv(dnf):
        out = FALSE
        for c in dnf:
            cc = TRUE
            for d in c:
                if d[0] == 'S' and d[1] in remap:
                    new, glo, ghi, lo, hi = remap[d[1]]
                    n = 1 << (ghi - glo + 1)
                    w = hi - lo + 1
                    vals = frozenset(v for v in range(n) if ((v >> (lo - glo)) & ((1 << w) - 1)) in d[3])
                    d = ('S', new, n, vals)
                cc = dnf_and(cc, one(d))
            out = dnf_or(out, cc)
        return out
    return conv(a), conv(b)


# ---- printing
def fmt_dec(d):
    if d[0] == 'S' and isinstance(d[3], CoSet):
        b_ = sorted(d[3].base, key=str)
        if d[3].neg: return '%s!=%s' % (d[1], b_[0]) if len(b_) == 1 else '%s not in %s' % (d[1], b_)
        return '%s==%s' % (d[1], b_[0]) if len(b_) == 1 else '%s in %s' % (d[1], b_)
    if d[0] == 'S':
        vs = sorted(d[3])
        if d[2] == 2: return '%s=%d' % (d[1], vs[0]) if len(vs) == 1 else '%s=any' % d[1]
        if len(vs) == 1: return '%s==%d' % (d[1], vs[0])
        if d[2] is not None and len(vs) > d[2] // 2:
            rest = sorted(set(range(d[2])) - set(vs))
            return '%s not in %s' % (d[1], rest) if len(rest) != 1 else '%s!=%d' % (d[1], rest[0])
        return '%s in %s' % (d[1], vs)
    if d[0] == 'V':
        vs = sorted(d[3])
        return '%s is %s' % (d[1], '|'.join(vs))
    if d[0] == 'A': return '%s%s' % ('' if d[2] else '!', d[1])
    return str(d)


def fmt_cond(dnf):
    if not dnf: return 'never'
    parts = []
    for c in sorted(dnf, key=lambda c_: sorted(map(fmt_dec, c_))):
        parts.append(' & '.join(sorted(fmt_dec(d) for d in c)) or 'always')
    return ' | '.join(parts)
